package main

import (
	"fmt"
	"github.com/gobuffalo/plush/v5"
	"github.com/gobuffalo/plush/v5/helpers/hctx"
	"html/template"
	"strings"
)

// ---- C12: Go helpers receive exactly the supplied arguments, or are not called -----

type c12param struct {
	ty   string // int str bool iface map hctx hctxi float html T0 pT0 slicei
	zero string // show() of the zero value
}

var c12sigs = map[int]struct {
	params   []c12param
	variadic bool
}{
	0:  {nil, false},
	1:  {[]c12param{{"int", "i0"}}, false},
	2:  {[]c12param{{"str", "s"}, {"int", "i0"}}, false},
	3:  {[]c12param{{"iface", "n"}, {"str", "s"}, {"bool", "b0"}}, false},
	4:  {[]c12param{{"str", "s"}, {"map", "n"}}, false},
	5:  {[]c12param{{"str", "s"}, {"hctx", "?"}}, false},
	6:  {[]c12param{{"str", "s"}, {"map", "n"}, {"hctx", "?"}}, false},
	7:  {[]c12param{{"int", "i0"}, {"iface", "n"}}, true},
	8:  {[]c12param{{"str", "s"}}, true},
	9:  {[]c12param{{"str", "s"}, {"hctxi", "?"}}, false},
	10: {[]c12param{{"str", "s"}, {"str", "s"}}, false},
	11: {[]c12param{{"T0", "T0(s)"}}, false},
	12: {[]c12param{{"pT0", "&n"}}, false},
	13: {[]c12param{{"slicei", "n"}}, false},
	14: {[]c12param{{"float", "f0"}}, false},
	15: {[]c12param{{"html", "h"}}, false},
	16: {[]c12param{{"bool", "b0"}}, false},
	17: {[]c12param{{"map", "n"}}, false},
	18: {[]c12param{{"str", "s"}, {"str", "s"}, {"str", "s"}}, false},
}

type c12arg struct {
	src  string
	ty   string // dynamic type: int str bool nil map slicei T0 pT0 float html
	show string
}

var c12args = []c12arg{
	{"1", "int", "i1"}, {`"a"`, "str", "s61"}, {"nil", "nil", ""}, {"true", "bool", "b1"}, {"{k: 1}", "map", "{6b=i1}"}, {"[1]", "slicei", "[i1]"},
	{"t0", "T0", "T0(s7a65726f)"}, {"pt0", "pT0", "&T0(s7074)"}, {"fl", "float", "f1.5"}, {"h", "html", "h3c693e"}, {"n + 1", "int", "i4"},
	// a typed nil pointer is a value like any other: it arrives unchanged (not as the untyped nil,
	// not as the zero value of another parameter type)
	{"np0", "pT0", "&n"},
}

func c12assignable(dyn, param string) bool {
	return param == "iface" || dyn == param
}

// the declarative binding: what the function must receive, or rejection
func c12expect(sig int, args []c12arg, block bool) (recv []string, reject bool) {
	s := c12sigs[sig]
	n := len(s.params)
	hshow := "H0"
	if block {
		hshow = "H1"
	}
	auto := func(p c12param) string {
		switch p.ty {
		case "hctx", "hctxi":
			return hshow
		case "map":
			return "{}"
		}
		return p.zero
	}
	bindOne := func(a c12arg, p c12param) (string, bool) {
		if a.ty == "nil" {
			return p.zero, true
		}
		if p.ty == "hctx" || p.ty == "hctxi" {
			return "", false // a template value is never a helper context
		}
		if !c12assignable(a.ty, p.ty) {
			return "", false
		}
		return a.show, true
	}
	if s.variadic {
		if len(args) < n-1 {
			return nil, true
		}
		for i, a := range args {
			p := s.params[n-1]
			if i < n-1 {
				p = s.params[i]
			}
			sh, ok := bindOne(a, p)
			if !ok {
				return nil, true
			}
			recv = append(recv, sh)
		}
		return recv, false
	}
	if len(args) > n {
		return nil, true
	}
	for i, a := range args {
		sh, ok := bindOne(a, s.params[i])
		if !ok {
			return nil, true
		}
		recv = append(recv, sh)
	}
	switch n - len(args) {
	case 0:
	case 1:
		recv = append(recv, auto(s.params[n-1]))
	case 2:
		recv = append(recv, auto(s.params[n-2]), auto(s.params[n-1]))
	default:
		return nil, true
	}
	return recv, false
}

type c12perr struct{}

func (e *c12perr) Error() string { return "perr" }

type c12merr map[string]int

func (e c12merr) Error() string { return "merr" }

type c12card struct{ name string }

func (c c12card) Title() string { return c.name }
func (c c12card) Wrap(h plush.HelperContext) (string, error) {
	if !h.HasBlock() {
		return "[noblock]", nil
	}
	b, err := h.Block()
	return "[" + b + "]", err
}
func (c c12card) IsNil(v interface{}) string {
	if v == nil {
		return "nil"
	}
	return "non-nil"
}
func (c c12card) Opt(m map[string]interface{}) int { return len(m) }

type c12shower struct{ Name string }

func (s c12shower) Show(v interface{}) string {
	if x, ok := v.(c12shower); ok {
		return fmt.Sprintf("%s got %T %s", s.Name, v, x.Name)
	}
	return fmt.Sprintf("%s got %T", s.Name, v)
}

func init() {
	register("C12", func(e *Env) {
		renderPrelude()
		e.perShard = 60
		e.rep.Rule = "19 recording helpers (0-3 fixed parameters of several types, +/- trailing options map, +/- helper context by struct or interface type, +/- variadic tail of interface{} or string) x every call shape of 0..3 (thorough: 0..4) arguments drawn from 11 argument kinds, +/- a block; expectation = the declarative binding (positional, nil -> zero value, omitted trailing map/helper context supplied, variadic tail collects the rest; too many / not assignable / more than two missing => an error naming the call and NO invocation); observed through the helpers' own log; plus evaluation-order probes with counting arguments, arguments that are themselves helper calls, and sequences in which a helper writes into its auto-supplied options map before other calls omit theirs; distinct by call"
		binds := []Bind{{"t0", vT0("zero")}, {"pt0", vPtr(vT0("pt"))}, {"np0", VD{K: "nilptr", Tn: "T0"}}, {"fl", vFloat("1.5")}, {"h", vHTML("<i>")}, {"n", vInt(3)},
			{"c1", vGo(101, vInt(1), vStr("x"))}, {"c2", vGo(101, vInt(2), vInt(5))}, {"c3", vGo(101, vInt(3), vBool(true))}}
		for sg := 0; sg <= 18; sg++ {
			binds = append(binds, Bind{fmt.Sprintf("rec%d", sg), vGo(106, vInt(sg), vStr(fmt.Sprintf("r%d", sg)))})
		}
		maxA := 3
		if e.Thorough() {
			maxA = 4
		}
		var shapes [][]c12arg
		var rec func(prefix []c12arg, d int)
		rec = func(prefix []c12arg, d int) {
			shapes = append(shapes, append([]c12arg{}, prefix...))
			if d == maxA {
				return
			}
			for _, a := range c12args {
				if d >= 2 && !e.Thorough() && (len(shapes)+d)%3 != 0 {
					continue
				}
				rec(append(append([]c12arg{}, prefix...), a), d+1)
			}
		}
		rec(nil, 0)
		for sg := 0; sg <= 18; sg++ {
			for _, sh := range shapes {
				if len(sh) > len(c12sigs[sg].params)+1 && !c12sigs[sg].variadic && len(sh) > 2 {
					continue // far too many arguments: one representative is enough
				}
				for _, block := range []bool{false, true} {
					srcs := make([]string, len(sh))
					for i, a := range sh {
						srcs[i] = a.src
					}
					call := fmt.Sprintf("rec%d(%s)", sg, strings.Join(srcs, ", "))
					tmpl := "<%= " + call + " %>"
					if block {
						tmpl = "<%= " + call + " { %>b<% } %>"
					}
					c := RCase{Tmpl: tmpl, Binds: binds}
					o := e.addRenderCase("bind", c)
					want, reject := c12expect(sg, sh, block)
					rp := map[string]interface{}{"case": c, "observed": o, "expected_args": want, "expected_reject": reject}
					e.Distinct(tmpl)
					if reject {
						if o.Class != "ERR" || len(o.Log) != 0 {
							e.Violate("c12-reject", fmt.Sprintf("%s must be rejected without invoking the helper: got %s %q, %d invocation(s)", call, o.Class, o.Out, len(o.Log)), rp)
						} else if !strings.Contains(o.Msg, fmt.Sprintf("rec%d", sg)) {
							e.Violate("c12-error-names-call", fmt.Sprintf("%s: the error does not name the call: %s", call, o.Msg), rp)
						}
						continue
					}
					ok := o.Class == "OK" && o.Out == fmt.Sprintf("r%d", sg) && len(o.Log) == 1
					if ok {
						got := o.Log[0].Args[1:]
						if len(got) != len(want) {
							ok = false
						} else {
							for i := range got {
								if want[i] != "?" && got[i] != want[i] {
									ok = false
								}
							}
						}
					}
					if !ok {
						e.Violate("c12-bind", fmt.Sprintf("%s: helper must receive %v exactly once; observed %s %q, log %v %s", call, want, o.Class, o.Out, o.Log, o.Msg), rp)
					}
				}
			}
		}
		// evaluation order and exactly-once: counting helpers as arguments
		for _, t := range []struct{ tmpl, order string }{
			{"<%= rec3(c1(), c1(), c3()) %>", "1,1,3"}, {"<%= rec7(c2(), c1(), c3(), c2()) %>", "2,1,3,2"}, {"<%= rec2(c1(), c2()) %>", "1,2"},
			{"<%= rec2(c1(), c1()) %>", "1,1"}, {"<%= rec1(c1()) %>", "1"}, {"<%= rec8(c1(), c1()) %>", "1,1"}, {"<%= rec3(c2(), c1(), c3()) %>", "2,1,3"},
		} {
			c := RCase{Tmpl: t.tmpl, Binds: binds}
			o := e.addRenderCase("order", c)
			var seen []string
			for _, l := range o.Log {
				if l.Id == 101 {
					seen = append(seen, strings.TrimPrefix(l.Args[0], "i"))
				}
			}
			if strings.Join(seen, ",") != t.order {
				e.Violate("c12-order", fmt.Sprintf("%s: arguments evaluated in order %v, want %s", t.tmpl, seen, t.order), map[string]interface{}{"case": c, "observed": o})
			}
			// a rejected call must still not invoke the function (arguments may have been evaluated)
			for _, l := range o.Log {
				if l.Id == 106 && o.Class != "OK" {
					e.Violate("c12-reject", fmt.Sprintf("%s failed (%s) but the helper was invoked", t.tmpl, o.Msg), map[string]interface{}{"case": c, "observed": o})
				}
			}
		}
		// arguments that are themselves Go-helper calls (after an earlier call with more arguments):
		// the outer helper must receive its own earlier arguments unchanged
		for _, t := range []struct {
			tmpl string
			want [][]string
		}{
			{`<%= rec3(1, "w", true) %><%= rec10("a", id("b")) %>`, [][]string{{show(1), show("w"), show(true)}, {show("a"), show("b")}}},
			{`<%= rec18("p", "q", "r") %><%= rec10("a", rec10("b", "c")) %>`, [][]string{{show("p"), show("q"), show("r")}, {show("b"), show("c")}, {show("a"), show("r10")}}},
			{`<%= rec3(1, "w", true) %><%= rec7(5, id(6), id(7), id(8)) %>`, [][]string{{show(1), show("w"), show(true)}, {show(5), show(6), show(7), show(8)}}},
			{`<%= rec3(1, "w", true) %><%= rec2("s", id(id(4))) %>|<%= rec2(id("t"), id(9)) %>`, [][]string{{show(1), show("w"), show(true)}, {show("s"), show(4)}, {show("t"), show(9)}}},
			{`<%= rec3(1, "w", true) %><%= rec4("s", {k: id(1)}) %><%= rec3(id(2), rec0(), id(false)) %>`, [][]string{{show(1), show("w"), show(true)}, {show("s"), "?"}, {}, {show(2), show("r0"), show(false)}}},
		} {
			c := RCase{Tmpl: t.tmpl, Binds: append(append([]Bind{}, binds...), Bind{"id", vGo(107)})}
			o := e.addRenderCase("nested-helper-args", c)
			var got [][]string
			for _, l := range o.Log {
				if l.Id == 106 {
					got = append(got, l.Args[1:])
				}
			}
			ok := o.Class == "OK" && len(got) == len(t.want)
			for i := 0; ok && i < len(got); i++ {
				if len(got[i]) != len(t.want[i]) {
					ok = false
					break
				}
				for j := range got[i] {
					if t.want[i][j] != "?" && got[i][j] != t.want[i][j] {
						ok = false
					}
				}
			}
			if !ok {
				e.Violate("c12-bind", fmt.Sprintf("%s: the helpers must receive %v in this order; observed %s, log %v %s", t.tmpl, t.want, o.Class, got, o.Msg), map[string]interface{}{"case": c, "observed": o})
			}
		}
		// the error a helper returns fails the call whatever error it is - also one that is, or wraps, an
		// unknown-identifier error (a helper that renders a snippet naming a missing variable): the call
		// was made with the arguments supplied, its failure is not an unknown identifier of THIS template
		{
			calls := 0
			extra := map[string]interface{}{
				"uerr": func() (string, error) { calls++; return "", &plush.ErrUnknownIdentifier{ID: "inner"} },
				"uwrap": func() (string, error) {
					calls++
					return "", fmt.Errorf("snippet: %w", &plush.ErrUnknownIdentifier{ID: "inner"})
				},
				"urend": func(h plush.HelperContext) (string, error) { calls++; return h.Render("<%= missingInSnippet %>") },
			}
			for _, h := range []string{"uerr", "uwrap", "urend"} {
				for _, form := range []string{"<%= X() %>", "<%= if (X()) { %>y<% } else { %>n<% } %>", "<%= if (false) { %>a<% } else if (X()) { %>b<% } else { %>c<% } %>", "<%= !X() %>", "<%= X() == nil %>",
					"<%= X() || true %>", "<%= true && X() %>", "<% let q = X() %>ok"} {
					tm := strings.Replace(form, "X", h, 1)
					calls = 0
					o := runRenderExtra(RCase{Tmpl: tm, Binds: binds}, extra)
					e.rep.Evaluations++
					e.Count("helper-error-kinds")
					e.Distinct(tm)
					if calls > 0 && o.Class != "ERR" {
						e.Violate("c12-bind", fmt.Sprintf("%s: the helper was called and returned an error, Render gave %s %q", tm, o.Class, o.Out), map[string]interface{}{"tmpl": tm, "observed": o})
					}
				}
			}
		}
		// an omitted trailing options map is a FRESH empty map for every call: a helper that writes
		// into the map it was given must not be visible to the next call that omits its options
		for _, t := range []string{
			"<%= rec17() %>|<%= mut() %>|<%= rec17() %>|<%= rec4(\"a\") %>|<%= mut() %>|<%= rec6(\"b\") %>",
			"<%= mut() %><%= mut({a: 1}) %>|<%= rec17() %>",
			"<%= for (i) in [1, 2] { %><%= mut() %><%= rec17() %><% } %>",
		} {
			c := RCase{Tmpl: t, Binds: append(append([]Bind{}, binds...), Bind{"mut", vGo(108)})}
			o := e.addRenderCase("fresh-options", c)
			emptyMap := show(map[string]interface{}{})
			for _, l := range o.Log {
				if l.Id == 106 {
					for _, a := range l.Args[1:] {
						if strings.HasPrefix(a, "{") && a != emptyMap {
							e.Violate("c12-bind", fmt.Sprintf("%s: a call that omits its options map received a map already holding another call's writes: %v", t, l.Args), map[string]interface{}{"case": c, "observed": o})
						}
					}
				}
			}
			if o.Class != "OK" {
				e.Violate("c12-bind", fmt.Sprintf("%s: %s %s", t, o.Class, o.Msg), map[string]interface{}{"case": c, "observed": o})
			}
		}
		// first result is the value; a non-nil trailing error fails the render
		for _, t := range []struct{ tmpl, want string }{{"<%= rec9(\"a\") %>", "r9"}, {"<%= fail1() %>", "ERR"}, {"<%= rec0() + \"!\" %>", "r0!"}} {
			c := RCase{Tmpl: t.tmpl, Binds: append(append([]Bind{}, binds...), Bind{"fail1", vGo(100, vInt(1))})}
			o := e.addRenderCase("result", c)
			if (t.want == "ERR") != (o.Class == "ERR") || (t.want != "ERR" && o.Out != t.want) || (t.want == "ERR" && o.Sentinel != 1) {
				e.Violate("c12-result", fmt.Sprintf("%s: got %s %q", t.tmpl, o.Class, o.Out), map[string]interface{}{"case": c, "observed": o})
			}
		}
		// a helper context in a FIXED position before a variadic tail can only be asked for by writing nil
		// there: it is supplied automatically all the same and carries the call's block; the tail receives
		// the remaining arguments (struct-typed and interface-typed context parameters, Go-only helpers)
		{
			got := []string{}
			mk := func(hasBlock func() bool, block func() (string, error), tags []string) (string, error) {
				got = append(got, fmt.Sprint(hasBlock(), tags))
				if !hasBlock() {
					return "noblock:" + strings.Join(tags, ","), nil
				}
				b, err := block()
				return "<" + b + ">" + strings.Join(tags, ","), err
			}
			extra := map[string]interface{}{
				"wrapv": func(h plush.HelperContext, tags ...string) (string, error) { return mk(h.HasBlock, h.Block, tags) },
				"wrapi": func(h hctx.HelperContext, tags ...string) (string, error) { return mk(h.HasBlock, h.Block, tags) },
				"wrapn": func(n int, h plush.HelperContext, tags ...string) (string, error) {
					return mk(h.HasBlock, h.Block, append([]string{fmt.Sprint(n)}, tags...))
				},
				"wrapf": func(s string, h plush.HelperContext) (string, error) { return mk(h.HasBlock, h.Block, []string{s}) },
			}
			for _, t := range [][2]string{
				{`<%= wrapv(nil, "a", "b") { %>body<% } %>`, "&lt;body&gt;a,b"}, {`<%= wrapv(nil) { %>body<% } %>`, "&lt;body&gt;"}, {`<%= wrapv(nil, "a") %>`, "noblock:a"},
				{`<%= wrapi(nil, "a", "b") { %>body<% } %>`, "&lt;body&gt;a,b"}, {`<%= wrapi(nil) %>`, "noblock:"}, {`<%= wrapn(7, nil, "t") { %>x<%= 1 %><% } %>`, "&lt;x1&gt;7,t"},
				{`<%= wrapf("s", nil) { %>blk<% } %>`, "&lt;blk&gt;s"}, {`<%= wrapf("s") { %>blk<% } %>`, "&lt;blk&gt;s"}, {`<%= for (x) in ["p", "q"] { %><%= wrapv(nil, x) { %><%= x %><% } %>;<% } %>`, "&lt;p&gt;p;&lt;q&gt;q;"},
			} {
				got = got[:0]
				o := runRenderExtra(RCase{Tmpl: t[0]}, extra)
				e.rep.Evaluations++
				e.Count("context-before-variadic-tail")
				e.Distinct(t[0])
				if o.Class != "OK" || o.Out != t[1] {
					e.Violate("c12-bind", fmt.Sprintf("%s: rendered %q (%s %s), want %q; the helper saw (has block, tail) = %v", t[0], o.Out, o.Class, firstLine(o.Msg), t[1], got), map[string]interface{}{"tmpl": t[0], "observed": o})
				}
			}
		}
		// a function declared to return a CONCRETE error type (func() (string, *MyErr)): a nil result is success,
		// a non-nil one fails the render; a non-pointer error value fails it whatever its value
		{
			extra := map[string]interface{}{
				"okp": func() (string, *c12perr) { return "ok", nil }, "badp": func() (string, *c12perr) { return "no", &c12perr{} },
				"onlyp": func() *c12perr { return nil }, "okm": func(s string) (string, c12merr) { return s, nil }, "badm": func() (string, c12merr) { return "no", c12merr{} },
			}
			for _, t := range [][2]string{{"<%= okp() %>", "ok"}, {"<%= badp() %>", "ERR"}, {"[<%= onlyp() %>]", "[]"}, {"<%= okm(\"m\") %>|<%= okp() + \"!\" %>", "m|ok!"}, {"<%= badm() %>", "ERR"},
				{"<%= if (okp() == \"ok\") { %>y<% } %>", "y"}, {"<%= for (i) in [1, 2] { %><%= okp() %><% } %>", "okok"}} {
				o := runRenderExtra(RCase{Tmpl: t[0]}, extra)
				e.rep.Evaluations++
				e.Count("concrete-error-result-types")
				e.Distinct(t[0])
				if (t[1] == "ERR") != (o.Class == "ERR") || (t[1] != "ERR" && o.Out != t[1]) {
					e.Violate("c12-result", fmt.Sprintf("%s: got %s %q (%s), want %q", t[0], o.Class, o.Out, firstLine(o.Msg), t[1]), map[string]interface{}{"tmpl": t[0], "observed": o})
				}
			}
		}
		// several METHODS of different signatures called in one render (method values made by reflection share
		// one code pointer): each call is bound by its own signature - omitted context / options supplied, nil stays nil
		{
			extra := map[string]interface{}{"card": c12card{"c"}, "pcard": &c12card{"p"}}
			for _, t := range [][2]string{
				{`<%= card.Title() %>|<%= card.Wrap() { %>b<% } %>`, "c|[b]"}, {`<%= card.Wrap() { %>b<% } %>|<%= card.IsNil() %>|<%= card.IsNil(nil) %>|<%= card.IsNil(1) %>`, "[b]|nil|nil|non-nil"},
				{`<%= card.Opt() %>|<%= card.Title() %>|<%= card.Opt({a: 1, b: 2}) %>|<%= card.Wrap() { %>x<% } %>`, "0|c|2|[x]"}, {`<%= card.IsNil(nil) %>|<%= card.Opt() %>|<%= card.Wrap() %>`, "nil|0|[noblock]"},
				{`<%= pcard.Title() %>|<%= pcard.Wrap() { %>q<% } %>|<%= card.Title() %>`, "p|[q]|c"}, {`<%= for (i) in [1, 2] { %><%= card.Title() %><%= card.Wrap() { %><%= i %><% } %><%= card.Opt() %>,<% } %>`, "c[1]0,c[2]0,"},
			} {
				o := runRenderExtra(RCase{Tmpl: t[0]}, extra)
				e.rep.Evaluations++
				e.Count("methods-of-different-signatures")
				e.Distinct(t[0])
				if o.Class != "OK" || o.Out != t[1] {
					e.Violate("c12-bind", fmt.Sprintf("%s: rendered %q (%s %s), want %q", t[0], o.Out, o.Class, firstLine(o.Msg), t[1]), map[string]interface{}{"tmpl": t[0], "observed": o})
				}
			}
		}
		// an argument that NAMES the variable the receiver was reached from (items[0].Show(items), mk().Show(mk)):
		// the method receives the value of that variable, not the receiver.  (The engine binds the indexed /
		// returned value under the variable's name while it evaluates the call: known finding
		// c12-argument-shadowed-by-receiver)
		{
			items := []c12shower{{"e0"}, {"e1"}}
			extra := map[string]interface{}{"items": items, "mk": func() c12shower { return c12shower{"made"} }}
			for _, t := range [][2]string{{`<%= items[0].Show(items) %>`, "e0 got []main.c12shower"}, {`<%= items[1].Show(items[0]) %>`, "e1 got main.c12shower e0"}, {`<%= mk().Show(mk) %>`, "made got func() main.c12shower"},
				{`<% let other = items %><%= items[0].Show(other) %>`, "e0 got []main.c12shower"}} {
				o := runRenderExtra(RCase{Tmpl: t[0]}, extra)
				e.rep.Evaluations++
				e.Count("argument-names-receiver-variable")
				e.Distinct(t[0])
				if o.Class == "OK" && o.Out != template.HTMLEscapeString(t[1]) {
					e.Violate("c12-argument-shadowed-by-receiver", fmt.Sprintf("%s: the method must receive the value of the named variable (%q), it rendered %q", t[0], t[1], o.Out), map[string]interface{}{"tmpl": t[0], "observed": o})
				}
			}
		}
		// the repaired defect F8 stays in the corpus
		{
			c := RCase{Tmpl: `<%= rec7(1, "a", nil, 2) %>`, Binds: binds}
			o := e.addRenderCase("corpus", c)
			if len(o.Log) != 1 || strings.Join(o.Log[0].Args[1:], ",") != "i1,s61,n,i2" {
				e.Violate("c12-bind", fmt.Sprintf("nil in a variadic tail: log %v", o.Log), map[string]interface{}{"case": c, "observed": o})
			}
		}
	})
}
