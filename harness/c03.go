package main

import (
	"fmt"
	"strings"
	"time"

	"github.com/gobuffalo/plush/v5"
)

// ---- C03: parsing is total ---------------------------------------------------

var c03vocab = []string{"x", "a.b", "1", "2.5", `"s"`, "`b`", `"C:\temp\d+"`, `"q\"q\\"`, "`r\\`", `"\`, ".", "=", "+", "-", "!", "*", "/", "%", "<", "<=", ">", ">=", "==", "!=", "&&", "||", "~=", "&",
	"<%", "<%#", "<%=", "%>", ",", ";", ":", "(", ")", "{", "}", "[", "]", "fn", "let", "true", "if", "else", "return", "for", "in", "continue", "break", "nil", "@", "#c\n", "T"}

var c03frames = [][2]string{{"<% ", " %>"}, {"<%= ", ""}, {"<% if (a) { %>", " "}, {"x<% <% ", " %>"}}

func (e *Env) parseOracleOnly(tag, input string) parseObs {
	o := parseImpl(input)
	e.rep.Evaluations++
	e.Count("parse-" + tag + "-" + o.Class)
	rp := map[string]interface{}{"input": input, "observed": o}
	switch o.Class {
	case "PANIC":
		e.Violate("parse-panic@"+siteOf(o.Msg), fmt.Sprintf("Parse panicked on %q: %s", input, o.Msg), rp)
	case "HANG":
		e.hangs++
		e.Violate("parse-hang", fmt.Sprintf("Parse did not return within 3s on %q", input), rp)
	}
	return o
}

func siteOf(msg string) string {
	if i := strings.LastIndex(msg, " @ "); i >= 0 {
		return msg[i+3:]
	}
	return "?"
}

func init() {
	register("C03", func(e *Env) {
		parsePrelude()
		e.perShard = 300
		e.rep.Rule = "Parse on: every token sequence of length <= k over a 55-token vocabulary (incl. string literals with backslashes before ordinary bytes, escaped quotes and a lone backslash) in 4 framings (closed tag, unclosed output tag, inside an if block, nested opener) - all judged by the recover/watchdog oracle, a seeded sample also re-parsed by the model (program dump / error lines compared); random token soup up to 60 tokens; byte mutations of valid templates; nesting towers to depth 256; plush.Parse / plush.Render / NewTemplate+Exec with the cache off and on over histories (failing input, then valid ones, then the failing one again); non-trivial = produced a program or at least one syntax error after lexing >= 2 tokens; distinct by input"
		k := 2
		if e.Thorough() {
			k = 3
		}
		n := 0
		var rec func(prefix []string, d int)
		rec = func(prefix []string, d int) {
			if len(prefix) > 0 {
				body := strings.Join(prefix, " ")
				for fi, fr := range c03frames {
					in := fr[0] + body + fr[1]
					n++
					// all cases go to the oracle; every 7th (quick) / 41st (thorough) also to the model
					mod := 7
					if e.Thorough() {
						mod = 41
					}
					if (n+fi)%mod == 0 {
						e.addParseCase("exh", in)
					} else {
						e.parseOracleOnly("exh", in)
					}
					e.Distinct("x/" + in)
				}
			}
			if d == k {
				return
			}
			for _, t := range c03vocab {
				rec(append(append([]string{}, prefix...), t), d+1)
			}
		}
		rec(nil, 0)
		e.rep.Exhaustive = true
		// random soup
		ns := 600
		if e.Thorough() {
			ns = 15000
		}
		for i := 0; i < ns; i++ {
			fr := c03frames[e.Rng.Intn(len(c03frames))]
			var b strings.Builder
			m := 1 + e.Rng.Intn(60)
			for j := 0; j < m; j++ {
				b.WriteString(c03vocab[e.Rng.Intn(len(c03vocab))])
				b.WriteString([]string{" ", "", "\n", " "}[e.Rng.Intn(4)])
			}
			in := fr[0] + b.String() + fr[1]
			if i%3 == 0 {
				e.addParseCase("soup", in)
			} else {
				e.parseOracleOnly("soup", in)
			}
		}
		// byte mutations of valid templates
		nm := 1500
		if e.Thorough() {
			nm = 30000
		}
		for i := 0; i < nm; i++ {
			src := []byte(battery[e.Rng.Intn(len(battery))])
			for j := 0; j < 1+e.Rng.Intn(3) && len(src) > 0; j++ {
				p := e.Rng.Intn(len(src))
				switch e.Rng.Intn(4) {
				case 0:
					src = append(src[:p], src[p+1:]...)
				case 1:
					mchars := "<%>=\\\"`#{}()[],;.!&|\x00\n a1"
					src[p] = mchars[e.Rng.Intn(len(mchars))]
				case 2:
					src = append(src[:p], append([]byte{"<%>={}()\""[e.Rng.Intn(9)]}, src[p:]...)...)
				default:
					src = src[:p]
				}
			}
			if i%4 == 0 {
				e.addParseCase("mut", string(src))
			} else {
				e.parseOracleOnly("mut", string(src))
			}
		}
		// token-level mutations of valid templates: delete each token, or replace it
		// by each of a few other tokens (exhaustive over the battery)
		repl := []string{")", "{", "}", "%>", "else", ",", "x"}
		seenMut := map[string]bool{}
		for bi, src := range battery {
			if !e.Thorough() && bi%2 == 1 {
				continue
			}
			toks := tokenSpans(src)
			for ti := range toks {
				variants := []string{src[:toks[ti][0]] + src[toks[ti][1]:]}
				for _, rp := range repl {
					variants = append(variants, src[:toks[ti][0]]+rp+src[toks[ti][1]:])
				}
				for vi, v := range variants {
					if seenMut[v] {
						continue
					}
					seenMut[v] = true
					if vi == 0 && (bi+ti)%5 == 0 {
						e.addParseCase("tokmut", v)
					} else {
						e.parseOracleOnly("tokmut", v)
					}
				}
			}
		}
		// nesting towers
		for _, unit := range [][2]string{{"(", ")"}, {"[", "]"}, {"{a: ", "}"}, {"!", ""}, {"-", ""}, {"f(", ")"}, {"x[", "]"}, {"fn(){ return ", " }"}, {"if (a) { ", " }"}, {"for (v) in xs { ", " }"}, {"a + ", ""}, {"a.b(", ")"}} {
			for _, depth := range []int{1, 8, 64, 256} {
				for _, closed := range []bool{true, false} {
					in := "<%= " + strings.Repeat(unit[0], depth) + "1"
					if closed {
						in += strings.Repeat(unit[1], depth) + " %>"
					}
					if depth <= 64 {
						e.addParseCase("tower", in)
					} else {
						e.parseOracleOnly("tower", in)
					}
				}
			}
		}
		for _, depth := range []int{1, 16, 256} {
			e.parseOracleOnly("tower", strings.Repeat("<% if (a) { %>x", depth)+strings.Repeat("<% } %>", depth))
			e.parseOracleOnly("tower", strings.Repeat("<% if (a) { %>x", depth))
			e.parseOracleOnly("tower", strings.Repeat("<% for (v) in xs { %>", depth)+"<% break %>"+strings.Repeat("<% } %>", depth))
			e.parseOracleOnly("tower", strings.Repeat("<%# ", depth))
		}
		// the package-level entry points (plush.Parse / plush.Render / Template.Exec), with the
		// template cache off and on, over HISTORIES: a failing input followed by good ones and
		// by itself again; every call under recover + watchdog
		guarded := func(what string, f func() error) string {
			ch := make(chan string, 1)
			go func() {
				defer func() {
					if r := recover(); r != nil {
						ch <- "PANIC: " + fmt.Sprint(r) + " @ " + panicSite()
					}
				}()
				if err := f(); err != nil {
					ch <- "ERR"
					return
				}
				ch <- "OK"
			}()
			select {
			case r := <-ch:
				return r
			case <-time.After(3 * time.Second):
				return "HANG"
			}
		}
		bads := []string{"<%= ( %>", "<% if (a) { %>x", "<%= [1, %>", "<% let = %>", "<%# never closed", "<%= \"open", "<% for (x) in { %>", "a\\<"}
		goods := []string{"plain", "<%= 1 + 2 %>", "<% let a = 1 %><%= a %>"}
	hist:
		for _, cache := range []bool{false, true, false, true} {
			plush.CacheEnabled = cache
			for _, bad := range bads {
				for _, seq := range [][]string{{bad, goods[0]}, {bad, bad, goods[1]}, {goods[2], bad, goods[2], bad}} {
					for _, in := range seq {
						in := in
						e.rep.Evaluations++
						e.Count(fmt.Sprintf("history-cache=%v", cache))
						for _, call := range []struct {
							name string
							f    func() error
						}{
							{"plush.Parse", func() error { _, err := plush.Parse(in); return err }},
							{"plush.Render", func() error { _, err := plush.Render(in, plush.NewContext()); return err }},
							{"NewTemplate+Exec", func() error {
								t, err := plush.NewTemplate(in)
								if err != nil {
									return err
								}
								_, err = t.Exec(plush.NewContext())
								return err
							}},
						} {
							r := guarded(call.name, call.f)
							// whether the text has a syntax error is what parser.Parse says on a direct call
							isBad := parseImpl(in).Class == "ERR"
							rp := map[string]interface{}{"history": seq, "input": in, "call": call.name, "cache": cache, "result": r}
							switch {
							case r == "HANG":
								e.Violate("parse-hang", fmt.Sprintf("%s(%q) did not return within 3s (cache=%v, after the history %q)", call.name, in, cache, seq), rp)
								break hist // the lock may be gone for good
							case strings.HasPrefix(r, "PANIC"):
								e.Violate("parse-panic@"+siteOf(r), fmt.Sprintf("%s(%q) panicked: %s", call.name, in, r), rp)
							case isBad && r == "OK":
								e.Violate("parse-accepts-syntax-error", fmt.Sprintf("%s(%q) returned no error (cache=%v, history %q)", call.name, in, cache, seq), rp)
							case !isBad && r != "OK":
								e.Violate("parse-rejects-valid", fmt.Sprintf("%s(%q) failed (cache=%v, history %q)", call.name, in, cache, seq), rp)
							}
						}
					}
				}
			}
		}
		plush.CacheEnabled = false
		// the repaired defects stay in the corpus
		// for loops whose iterable is a call chained with fields, indexes and further calls
		for _, in := range []string{"<%= for (x) in a().B { %>p<% } %>", "<%= for (x) in a.b().c().d { %>p<% } %>", "<%= for (x) in f()[0] { %>q<% } %>", "<% for (x) in a().b.c() { %>r<% } %>",
			"<%= for (k, v) in f(1)(2) { %>s<% } %>", "<%= for (x) in a().b[0].c { %>t<% } %>", "<%= for (x) in a().B", "<%= for (x) in a().B {", "<%= for (x) in a() { %>u<% } %>", "<%= for (x) in a()() { %>", "<%= for (x) in a().b() { x } %>"} {
			e.addParseCase("for-chain", in)
		}
		// every construct that nests, nested deep inside itself (Parse must stay fast: a printer or a
		// parser function that does repeated work per level is exponential)
		for _, depth := range []int{8, 24, 48, 72} {
			rep := func(open, close string) string {
				return strings.Repeat(open, depth) + "x" + strings.Repeat(close, depth)
			}
			for _, in := range []string{
				"<%= " + rep("tag(\"d\") { %>a<%= ", " %>b<% }") + " %>",
				rep("<%= if (c) { %>a", "b<% } %>"), rep("<%= if (c) { %>a<% } else { %>", "<% } %>"), rep("<%= for (v) in xs { %>a", "b<% } %>"),
				rep("<% let f = fn(a) { %>a", "b<% } %>"), "<%= " + rep("(", ")") + " %>", "<%= " + rep("[", "]") + " %>", "<%= " + rep("{k: ", "}") + " %>",
				"<%= " + rep("f(", ")") + " %>", "<%= " + rep("!", "") + " %>", "<%= x" + strings.Repeat("[0]", depth) + " %>", "<%= x" + strings.Repeat(".f()", depth) + " %>",
				"<%= " + rep("f(1, {a: [", "]})") + " %>", "<%= " + rep("partial(\"p\") { %>", "<% }") + " %>",
			} {
				e.addParseCase("deep", in)
			}
		}
		// far beyond the depths of the corpus above (a depth limit, if there is one, must end in an error)
		for _, depth := range []int{300, 1100, 2500} {
			rep := func(open, close string) string { return strings.Repeat(open, depth) + "x" + strings.Repeat(close, depth) }
			for _, in := range []string{"<%= " + rep("(", ")") + " %>", "<%= " + strings.Repeat("(", depth), "<%= " + rep("[", "]") + " %>", "<%= " + rep("!", "") + " %>",
				rep("<%= if (c) { %>", "<% } %>"), "<%= " + rep("f(", ")") + " %>", "<%= " + rep("{k: ", "}") + " %>"} {
				o := parseImpl(in)
				e.rep.Evaluations++
				e.Count("parse-verydeep-" + o.Class)
				rp := map[string]interface{}{"input_len": len(in), "depth": depth, "observed_class": o.Class}
				switch o.Class {
				case "PANIC":
					e.Violate("parse-panic", fmt.Sprintf("Parse panicked on %q nested %d deep: %s", in[:12], depth, firstLine(o.Msg)), rp)
				case "HANG":
					e.Violate("parse-hang", fmt.Sprintf("Parse did not return within 3s on %q nested %d deep", in[:12], depth), rp)
				}
			}
		}
		for _, in := range []string{"<%# abc", "<% break( %>", "<% for (x) in ) { %>", "<%= {a: ) } %>", "<%= xs[)] %>", "<% break[1] %>", "<%= [1, )] %>", "a\\<", "\\<", "<%= {let: 1} %>", "<% if (true) { } else if (let) { } %>"} {
			e.addParseCase("corpus", in)
		}
		// every byte value at every position where a token can start or end inside a tag (after the tag
		// opener, after an operator, glued to an identifier or a number, before the closer, at the end of
		// the input): a syntax error or a parse, whatever the byte
		for b := 0; b < 256; b++ {
			if !e.Thorough() && b > 0x20 && b < 0x7f && b%7 != 0 {
				continue // printable ASCII is what the other generators are made of
			}
			c := string([]byte{byte(b)})
			for _, in := range []string{"<%= " + c + " %>", "<%= 1 + " + c + " %>", "<%= name" + c + "%>", "<%= 7" + c + " %>", "<% " + c, "<%" + c + "%>", "<% let x" + c + " = 1 %>", "<%= f(" + c + ") %>",
				"<%= [" + c + "] %>", "<%= if (" + c + ") { %>a<% } %>", "<%= x." + c + " %>", "<%= 1 " + c + c + " 2 %>"} {
				e.addParseCase("byte", in)
			}
		}
	})
}

// byte spans of the code tokens of a template (crude: maximal runs of letters /
// digits / dots, quoted strings, two-byte operators, single punctuation bytes,
// inside <% %> tags only)
func tokenSpans(src string) [][2]int {
	var spans [][2]int
	inside := false
	i := 0
	isWord := func(c byte) bool {
		return c == '_' || c == '.' || c >= '0' && c <= '9' || c >= 'a' && c <= 'z' || c >= 'A' && c <= 'Z'
	}
	for i < len(src) {
		if !inside {
			if strings.HasPrefix(src[i:], "<%") {
				inside = true
				j := i + 2
				if j < len(src) && (src[j] == '=' || src[j] == '#') {
					j++
				}
				spans = append(spans, [2]int{i, j})
				i = j
			} else {
				i++
			}
			continue
		}
		c := src[i]
		switch {
		case c == ' ' || c == '\n' || c == '\t' || c == '\r':
			i++
		case strings.HasPrefix(src[i:], "%>"):
			spans = append(spans, [2]int{i, i + 2})
			i += 2
			inside = false
		case c == '"' || c == '`':
			j := i + 1
			for j < len(src) && src[j] != c {
				if src[j] == '\\' {
					j++
				}
				j++
			}
			if j < len(src) {
				j++
			}
			spans = append(spans, [2]int{i, j})
			i = j
		case isWord(c):
			j := i
			for j < len(src) && isWord(src[j]) {
				j++
			}
			spans = append(spans, [2]int{i, j})
			i = j
		default:
			j := i + 1
			if j < len(src) && strings.Contains("== != <= >= && || ~=", src[i:j+1]) && len(src[i:j+1]) == 2 {
				j++
			}
			spans = append(spans, [2]int{i, j})
			i = j
		}
	}
	return spans
}
