package main

// extra tables are added here as further properties are wired in.
func extra() {}
