package main

import (
	"fmt"
	"go/ast"
	"go/token"
	"sort"
	"strings"
)

// extra tables: lock/access table (C14), map-range sites (C13), ranger
// constants and groupBy twins (C19).
func extra() {
	accessTable()
	mapRangeSites()
	rangerConsts()
	templateBodies()
}

// ---- C14: which shared fields are read/written under which locks -----------

type access struct {
	field string
	write bool
	locks []string
}

func recvType(fd *ast.FuncDecl) (name, typ string) {
	if fd.Recv == nil || len(fd.Recv.List) == 0 {
		return "", ""
	}
	f := fd.Recv.List[0]
	if len(f.Names) > 0 {
		name = f.Names[0].Name
	}
	t := f.Type
	if st, ok := t.(*ast.StarExpr); ok {
		t = st.X
	}
	if id, ok := t.(*ast.Ident); ok {
		typ = id.Name
	}
	return
}

var sharedFields = map[string]bool{"data": true, "helpers": true}
var sharedGlobals = map[string]bool{"cache": true}

func accessesOf(fd *ast.FuncDecl, pkg string) []access {
	rname, rtyp := recvType(fd)
	held := map[string]bool{}
	var out []access
	lockName := func(e ast.Expr) string {
		switch t := e.(type) {
		case *ast.SelectorExpr:
			if id, ok := t.X.(*ast.Ident); ok && id.Name == rname && rtyp != "" {
				return rtyp + "." + t.Sel.Name
			}
			return "?" + pr(t)
		case *ast.Ident:
			return pkg + "." + t.Name
		}
		return "?" + pr(e)
	}
	heldList := func() []string {
		l := []string{}
		for k, v := range held {
			if v {
				l = append(l, k)
			}
		}
		sort.Strings(l)
		return l
	}
	written := map[ast.Expr]bool{}
	var visitExpr func(e ast.Node)
	visitExpr = func(n ast.Node) {
		ast.Inspect(n, func(x ast.Node) bool {
			switch t := x.(type) {
			case *ast.FuncLit:
				return false // closures run later (deferred unlocks etc.)
			case *ast.SelectorExpr:
				if sharedFields[t.Sel.Name] {
					owner := "?"
					if id, ok := t.X.(*ast.Ident); ok {
						if id.Name == rname && rtyp != "" {
							owner = rtyp
						} else {
							owner = "other:" + id.Name
						}
					} else {
						owner = "other:" + norm(pr(t.X))
					}
					out = append(out, access{owner + "." + t.Sel.Name, written[t], heldList()})
				}
			case *ast.Ident:
				if sharedGlobals[t.Name] && t.Obj != nil && t.Obj.Kind == ast.Var {
					out = append(out, access{pkg + "." + t.Name, written[t], heldList()})
				}
			}
			return true
		})
	}
	var walk func(s ast.Stmt)
	walk = func(s ast.Stmt) {
		switch t := s.(type) {
		case *ast.BlockStmt:
			for _, x := range t.List {
				walk(x)
			}
		case *ast.ExprStmt:
			if ce, ok := t.X.(*ast.CallExpr); ok {
				if se, ok := ce.Fun.(*ast.SelectorExpr); ok && len(ce.Args) == 0 {
					if se.Sel.Name == "Lock" {
						held[lockName(se.X)] = true
						return
					}
					if se.Sel.Name == "Unlock" {
						held[lockName(se.X)] = false
						return
					}
				}
			}
			visitExpr(t)
		case *ast.DeferStmt:
			// defer X.Unlock(): the lock stays held to the end of the function
		case *ast.AssignStmt:
			for _, l := range t.Lhs {
				if ix, ok := l.(*ast.IndexExpr); ok {
					written[ix.X] = true
				} else {
					written[l] = true
				}
			}
			for _, r := range t.Rhs {
				visitExpr(r)
			}
			for _, l := range t.Lhs {
				visitExpr(l)
			}
		case *ast.IfStmt:
			if t.Init != nil {
				walk(t.Init)
			}
			visitExpr(t.Cond)
			walk(t.Body)
			if t.Else != nil {
				walk(t.Else)
			}
		case *ast.ForStmt:
			if t.Init != nil {
				walk(t.Init)
			}
			if t.Cond != nil {
				visitExpr(t.Cond)
			}
			walk(t.Body)
		case *ast.RangeStmt:
			visitExpr(t.X)
			walk(t.Body)
		case *ast.ReturnStmt:
			visitExpr(t)
		case nil:
		default:
			visitExpr(t)
		}
	}
	walk(fd.Body)
	return out
}

func accessTable() {
	type row struct {
		fn string
		as []access
	}
	var rows []row
	for _, fp := range []struct{ file, pkg string }{{"context.go", "plush"}, {"plush.go", "plush"}, {"helpers/map.go", "helpers"}, {"template.go", "plush"}} {
		f := parseFile(fp.file)
		for _, d := range f.Decls {
			fd, ok := d.(*ast.FuncDecl)
			if !ok || fd.Body == nil {
				continue
			}
			_, rt := recvType(fd)
			name := fd.Name.Name
			if rt != "" {
				name = rt + "." + name
			}
			as := accessesOf(fd, fp.pkg)
			if len(as) > 0 {
				rows = append(rows, row{name, as})
			}
		}
	}
	sort.Slice(rows, func(i, j int) bool { return rows[i].fn < rows[j].fn })
	fmt.Println("(* (function, accesses in source order: (location, is_write, locks held)) *)")
	fmt.Println("Definition access_table : list (string * list (string * bool * list string)) :=\n  [")
	for i, r := range rows {
		items := []string{}
		for _, a := range r.as {
			ls := []string{}
			for _, l := range a.locks {
				ls = append(ls, q(l))
			}
			w := "false"
			if a.write {
				w = "true"
			}
			items = append(items, fmt.Sprintf("(%s, %s, [%s])", q(a.field), w, strings.Join(ls, "; ")))
		}
		sep := ";"
		if i == len(rows)-1 {
			sep = ""
		}
		fmt.Printf("   (%s, [%s])%s\n", q(r.fn), strings.Join(items, "; "), sep)
	}
	fmt.Println("  ].\n")
}

// ---- C13: every range over a map-typed *field or local we can recognise* ---
// (syntactic: range over an expression whose last selector is a known map
// field, or MapKeys()); enough to notice a re-introduced range over Pairs.
var mapFields = map[string]bool{"Pairs": true, "data": true, "helpers": true}

func mapRangeSites() {
	sites := []string{}
	for _, file := range []string{"compiler.go", "context.go", "partial_helper.go", "plush.go", "helper_context.go", "template.go", "user_function.go", "iterators.go", "helpers/content/for.go", "helpers/content/of.go", "ast/hash_literal.go"} {
		f := parseFile(file)
		for _, d := range f.Decls {
			fd, ok := d.(*ast.FuncDecl)
			if !ok || fd.Body == nil {
				continue
			}
			ast.Inspect(fd.Body, func(n ast.Node) bool {
				switch t := n.(type) {
				case *ast.RangeStmt:
					x := norm(pr(t.X))
					last := x
					if i := strings.LastIndex(x, "."); i >= 0 {
						last = x[i+1:]
					}
					if mapFields[last] || x == "data" || x == "helpers" || strings.HasSuffix(x, ".All()") {
						sites = append(sites, fd.Name.Name+": range "+x)
					}
				case *ast.CallExpr:
					if se, ok := t.Fun.(*ast.SelectorExpr); ok && se.Sel.Name == "MapKeys" {
						sites = append(sites, fd.Name.Name+": "+norm(pr(t)))
					}
				}
				return true
			})
		}
	}
	sort.Strings(sites)
	fmt.Printf("Definition map_range_sites : list string := [%s].\n\n", joinQ(sites))
}

// ---- C19: constructor constants of the ranger iterators, groupBy twins ------
func rangerConsts() {
	ps := []pair{}
	for _, fl := range []struct{ file, fn string }{
		{"helpers/iterators/range.go", "Range"}, {"helpers/iterators/between.go", "Between"}, {"helpers/iterators/until.go", "Until"},
		{"iterators.go", "rangeHelper"}, {"iterators.go", "betweenHelper"}, {"iterators.go", "untilHelper"}} {
		f := parseFile(fl.file)
		fd := findFunc(f, fl.fn)
		v := "UNRECOGNISED"
		if fd != nil && len(fd.Body.List) == 1 {
			if rs, ok := fd.Body.List[0].(*ast.ReturnStmt); ok && len(rs.Results) == 1 {
				v = norm(pr(rs.Results[0]))
			}
		}
		ps = append(ps, pair{fl.fn, v})
	}
	emitPairs("ranger_consts", "string * string", ps, false)
	nexts := []pair{}
	for _, file := range []string{"helpers/iterators/range.go", "iterators.go"} {
		f := parseFile(file)
		for _, d := range f.Decls {
			fd, ok := d.(*ast.FuncDecl)
			if !ok || fd.Name.Name != "Next" {
				continue
			}
			if _, rt := recvType(fd); rt == "ranger" {
				nexts = append(nexts, pair{file, normStmts(fd.Body.List)})
			}
		}
	}
	emitPairs("ranger_next", "string * string", nexts, false)
	gb := func(file, fn string) string {
		fd := findFunc(parseFile(file), fn)
		if fd == nil {
			return "UNRECOGNISED:" + fn
		}
		s := normStmts(fd.Body.List)
		s = strings.ReplaceAll(s, "errors.New(\"E\"", "ERR(")
		s = strings.ReplaceAll(s, "fmt.Errorf(\"E\"", "ERR(")
		return s
	}
	fmt.Printf("Definition groupby_src_a : string := %s.\n\n", q(gb("helpers/iterators/group_by.go", "GroupBy")))
	fmt.Printf("Definition groupby_src_b : string := %s.\n\n", q(gb("iterators.go", "GroupByHelper")))
	_ = token.ADD
}

// ---- C13: the cache and the template life cycle (plush.go, template.go) ------
// statement-by-statement fingerprints of the functions model/Cache.v transcribes
func templateBodies() {
	for _, fl := range []struct{ file, fn, name string }{
		{"plush.go", "Parse", "plush_Parse"}, {"plush.go", "Render", "plush_Render"},
		{"template.go", "NewTemplate", "NewTemplate"}, {"template.go", "Parse", "Template_Parse"},
		{"template.go", "Exec", "Template_Exec"}, {"template.go", "Clone", "Template_Clone"},
	} {
		f := parseFile(fl.file)
		parts := []string{}
		if fd := findFunc(f, fl.fn); fd != nil && fd.Body != nil {
			for _, st := range fd.Body.List {
				parts = append(parts, norm(pr(st)))
			}
		} else {
			parts = append(parts, "UNRECOGNISED:missing "+fl.fn)
		}
		fmt.Printf("Definition body_%s : list string := [%s].\n\n", fl.name, joinQ(parts))
	}
}
