#!/bin/bash
# Build the verification framework from files on disk only (offline).
set -e
cd "$(dirname "$0")"
export GOFLAGS=-mod=mod GOPROXY=off GOSUMDB=off GOTOOLCHAIN=local
mkdir -p build evidence
cp /repo/go.sum harness/go.sum 2>/dev/null || true
(cd translator && go build -o ../build/translator . && ../build/translator -repo /repo | python3 ../tools/split_tables.py)
(cd coq && coq_makefile -f _CoqProject -o Makefile >/dev/null && timeout 3000 make -j16)
(cd harness && CGO_ENABLED=0 go build -tags verif -o ../build/harness .)
echo "setup done"
