# Per-property configuration for ./check.
COMMON_TB = [
    "Coq 8.16.1 kernel (coqc); vm_compute is used for case files and finite sweeps; native_compute is not used",
    "translator (/verif/translator, go/parser+go/ast): trusted to report /repo's tables faithfully",
    "Go harness + generated case files (correspondence check): trusted glue",
]

PROPS = {
    "C10": {
        "level": "proof",
        "cone": ["model/Bytes.v", "model/Ctx.v", "spec/RefCtx.v", "proofs/BytesProofs.v", "proofs/CtxProofs.v", "props/C10.v"],
        "trusted_base": COMMON_TB + [
            "model/Ctx.v is a hand transcription of context.go (New/Set/Value/Has, NewContextWith, NewContextWithOuter); tied to the code by the correspondence check only",
            "wrapped context.Context values (NewContextWithContext) are modelled as a per-root assoc list and not exercised with helper-named keys",
        ],
        "assumptions": ["Go map semantics of c.data (insert/replace/lookup) are those of an association list with unique keys"],
        "explanation": "theorems over all histories on the Coq model of context.go + differential runs of the model against the real Context on exhaustive short and random long histories",
    },
    "C19": {
        "level": "proof",
        "cone": ["model/Bytes.v", "model/Iter.v", "proofs/IterProofs.v", "props/C19.v"],
        "trusted_base": COMMON_TB + [
            "model/Iter.v transcribes helpers/iterators/{range,between,until,group_by}.go and helpers/meta/len.go; Go int arithmetic modelled as Z wrapped to 64 bits",
            "reflect.Value.Len / Slice semantics assumed (len_direct, firstn/skipn)",
        ],
        "assumptions": ["Go int is 64-bit two's complement"],
        "explanation": "closed-form theorems for the ranger iterators (with the minint side conditions that are the known finding F13), partition theorem for groupBy, len theorem; differential runs against helpers/iterators, plush.GroupByHelper and helpers/meta",
    },
    "C20": {
        "level": "proof",
        "cone": ["model/Bytes.v", "model/Text.v", "proofs/TextProofs.v", "proofs/EscapeProofs.v", "proofs/Utf8Proofs.v", "proofs/JsonProofs.v", "proofs/HtmlProofs.v", "proofs/TruncProofs.v", "props/C20.v"],
        "trusted_base": COMMON_TB + [
            "model/Text.v re-implements unicode/utf8 decoding, helpers/text/truncate.go, text/template.HTMLEscapeString and JSEscapeString, and encoding/json's encoder for null/bool/int/string/array/object; these standard-library functions are modelled, not verified (tied by differential runs)",
            "unicode.IsPrint is an oracle (section variable is_print); the harness supplies its value for the runes of each case",
        ],
        "assumptions": ["strings with invalid UTF-8 are outside 'JSON-representable values' for the round trip"],
        "explanation": "theorems about truncate and the HTML escaper on the Coq model + differential runs of truncate/htmlEscape/jsEscape/toJSON against the real helpers, with property oracles in Go (rune bound, prefix, no raw specials, json.Valid + decode round trip)",
    },
    "C14": {
        "level": "proof",
        "race": True,
        "cone": ["gen/Tables.v", "model/Conc.v", "proofs/ConcProofs.v", "props/C14.v"],
        "trusted_base": COMMON_TB + [
            "the access table (which shared field is read/written under which mutex) is extracted syntactically by the translator from context.go, plush.go, helpers/map.go, template.go; a lock taken through a helper the translator does not see is not recognised (fails closed: the access is listed as unlocked)",
            "locations and locks are identified per field, assuming a mutex and the map it guards belong to the same object",
            "NOT shown by the theorem: races inside the Go runtime / standard library / user helpers, and whether the lexical lockset is what executes - exhibited only by the -race harness runs",
        ],
        "assumptions": ["Go's sync.Mutex provides mutual exclusion; Has and New touch shared state only through Value and Set"],
        "explanation": "PARTIAL by design: lockset soundness theorem (any number of threads, any schedule) + vm_compute check of the table regenerated from /repo; the runtime half is the race-detector harness (context reader/writer mixes, shared template with separate contexts incl. children of one parent, cache on/off), every concurrent result compared with the sequential one",
    },
    "LEX": {"level": "other", "cone": [], "explanation": "internal: lexer model vs lexer.NextToken"},
    "PARSE": {"level": "other", "cone": [], "explanation": "internal: parser model vs parser.Parse"},
    "RENDER": {"level": "other", "cone": [], "explanation": "internal: evaluator model vs plush.Render on a fixed battery"},
    "C03": {
        "level": "proof",
        "cone": ["model/Bytes.v", "model/Lexer.v", "model/Ast.v", "model/Parser.v", "proofs/LexerProofs.v", "proofs/ParserTotal.v", "proofs/EvalProofs.v", "props/C03.v"],
        "trusted_base": COMMON_TB + [
            "model/Lexer.v and model/Parser.v are hand transcriptions of lexer/lexer.go and parser/parser.go (cursor conventions, error recording, String()-derived rewiring included); tied to the code by token-stream and program-dump correspondence",
            "strconv.Atoi / ParseFloat on number literals are modelled (range check only)",
        ],
        "assumptions": [],
        "explanation": "totality theorems on the lexer/parser model + differential runs (token streams, parsed-program dumps, error lines) + recover/watchdog oracle on Parse",
    },
    "C04": {
        "level": "proof",
        "cone": ["model/Value.v", "model/Eval.v", "proofs/EvalProofs.v", "props/C04.v"],
        "trusted_base": COMMON_TB + [
            "model/Eval.v + model/Value.v transcribe compiler.go, helper_context.go, partial_helper.go and helpers/content; reflect is modelled by case analysis on the value universe (29 kinds of the shared family), not verified",
            "Go-only value kinds (sized ints, named types, arrays, channels, time.Time, Stringers, pointer-to-pointer, odd func signatures) and the helpers env/debug/inflections/pathFor/form are NOT modelled: they are judged by the recover oracle only",
            "unbounded recursion through user functions ends in a Go stack overflow: outside the property (divergent templates) and outside the model (fuel)",
        ],
        "assumptions": [],
        "explanation": "no-panic theorem on the evaluator model + exhaustive kind matrices run on the implementation under recover/watchdog and re-evaluated by the model",
    },
    "C05": {
        "level": "proof",
        "cone": ["model/Eval.v", "proofs/EvalProofs.v", "proofs/QuietProofs.v", "props/C05.v"],
        "trusted_base": COMMON_TB + [
            "model/Eval.v + model/Value.v transcribe compiler.go, helper_context.go, partial_helper.go and helpers/content (reflect modelled by case analysis on the shared value family); tied to the code by the render correspondence",
        ],
        "assumptions": [],
        "explanation": "global invariant of the evaluator model proved by induction on fuel over all 27 mutually recursive functions (a result that is a value, or the tolerated unknown identifier, means no failing helper was invoked; otherwise exactly one was and the error is its sentinel) + one-step theorems about error propagation + failing-helper placements run on the implementation (invoked-and-failed oracle) and re-evaluated by the model",
    },
    "C07": {
        "level": "proof",
        "cone": ["model/Value.v", "model/Eval.v", "proofs/EvalProofs.v", "props/C07.v"],
        "trusted_base": COMMON_TB + [
            "model/Eval.v + model/Value.v transcribe compiler.go, helper_context.go, partial_helper.go and helpers/content (reflect modelled by case analysis on the shared value family); tied to the code by the render correspondence",
        ],
        "assumptions": [],
        "explanation": "truthiness classification and if-chain theorems on the model + exhaustive kind matrix / truth assignments on the implementation with counting conditions",
    },
    "C06": {
        "level": "proof",
        "cone": ["gen/Tables.v", "model/Parser.v", "model/Value.v", "model/Eval.v", "proofs/ParserProofs.v", "proofs/OperatorProofs.v", "proofs/EvalProofs.v", "props/C06.v"],
        "trusted_base": COMMON_TB + [
            "model/Parser.v (Pratt loop over the precedence table regenerated from parser/precedences.go) and model/Value.v (typed operator functions) transcribe the code; floats are Coq primitive floats (IEEE binary64); regexp matching is an oracle (not modelled)",
            "C06_nan_comparisons uses three axioms DECLARED BY THE STANDARD LIBRARY (Coq.Floats.FloatAxioms: eqb_spec, ltb_spec, leb_spec - the specification of the primitive float comparisons against SpecFloat); no other theorem uses a logical axiom",
        ],
        "assumptions": ["combinations the README leaves open are excluded by name: bool+bool, comparison of a string with a non-string, bool with a non-bool operand"],
        "explanation": "precedence-table and operator theorems on the model + exhaustive depth-1 and random deeper trees judged against a Go reference evaluator in three parenthesisations",
    },
    "C08": {
        "level": "proof",
        "cone": ["model/Eval.v", "proofs/EvalProofs.v", "props/C08.v"],
        "trusted_base": COMMON_TB + ["model/Eval.v (eval_for, for_slice/for_items/for_iter, eval_stmts with the break/continue/return objects) transcribes evalForExpression and evalBlockStatement; map iteration order is the association-list order of the model and is compared only as a multiset"],
        "assumptions": [],
        "explanation": "loop theorems on the model + generated loop bodies judged against an element-by-element Go reference interpreter (loop unrolling) and re-evaluated by the model",
    },
    "C01": {
        "level": "proof",
        "cone": ["model/Text.v", "model/Value.v", "model/Eval.v", "proofs/TextProofs.v", "proofs/EvalProofs.v", "props/C01.v"],
        "trusted_base": COMMON_TB + ["the sink (write) and html_escape of model/Value.v and model/Text.v transcribe compiler.write and text/template.HTMLEscapeString; values with a String() method that are not strings (fmt.Stringer) are emitted unescaped by the sink and are treated as trusted (stated, not hidden)"],
        "assumptions": [],
        "explanation": "sink theorems (escaped exactly once / verbatim exactly once, for every value) on the model + payload plumbing routes on the implementation with a marker oracle, re-evaluated by the model",
    },
    "C02": {
        "level": "proof",
        "cone": ["model/Lexer.v", "model/Parser.v", "model/Eval.v", "proofs/LexerProofs.v", "proofs/RenderProofs.v", "proofs/EvalProofs.v", "props/C02.v"],
        "trusted_base": COMMON_TB + ["model/Lexer.v (readHTML, readString, readBString) transcribes lexer/lexer.go; NUL bytes end the scan as in the code and are outside the property (NUL-free)"],
        "assumptions": [],
        "explanation": "lexer theorems (text scanning vs the reference scanner, tag-free identity, string literals) + exhaustive short strings and random interleavings compared with the concatenation of texts and values",
    },
    "C09": {
        "level": "proof", "cone": ["model/Ctx.v", "model/Eval.v", "proofs/CtxProofs.v", "proofs/EvalProofs.v", "proofs/ScopeProofs.v", "proofs/FrameProofs.v", "props/C09.v"],
        "trusted_base": COMMON_TB + ["model/Eval.v + model/Ctx.v transcribe the evaluator's scope handling (c.ctx swapping with deferred restore, New(), the data copy in for / index-callee / chained calls, BlockWith, contentFor closures, partial) ; tied to the code by the render correspondence"], "assumptions": ["Go helpers outside the modelled set do not write to context handles other than the one they are given (true of all shipped helpers; the modelled ones are covered by the theorems)"],
        "explanation": "two global invariants of the evaluator model proved by induction on fuel through all 27 mutually recursive functions: (ScopeProofs) the current scope is restored after every evaluation on the value and on the error path; (FrameProofs) of the frames that existed, only the current one can change, and for / partial / contentOf / block-with-data / function bodies change none, hence every name looked up afterwards has its old value + generated scope nestings judged against an environment-chain reference",
    },
    "C16": {
        "level": "proof", "cone": ["model/Eval.v", "proofs/EvalProofs.v", "props/C16.v"],
        "trusted_base": COMMON_TB + ["model/Eval.v + model/Ctx.v transcribe the evaluator's scope handling (c.ctx swapping with deferred restore, New(), the data copy in for / index-callee / chained calls, BlockWith, contentFor closures, partial) ; tied to the code by the render correspondence"], "assumptions": ["return inside a for body ends the iteration, not the function (established by the existing tests); the property's quantifier has no loops in function bodies"],
        "explanation": "theorems about user_call on the model (arguments evaluated in the caller scope, fresh scope, unwrapped return value) + generated decision-chain functions judged against a Go reference",
    },
    "C13": {
        "level": "proof", "cone": ["gen/Tables.v", "model/Eval.v", "model/Cache.v", "model/Expected.v", "proofs/TablesAgree.v", "proofs/CacheProofs.v", "proofs/EvalProofs.v", "props/C13.v"],
        "trusted_base": COMMON_TB + ["determinism of the model is by construction (it is a function); the sources of nondeterminism are tied to the code by the regenerated map_range_sites table (every range over a map / MapKeys in the evaluator) and by the snapshot harness (verif hook VerifProgram)", "Go map iteration order enters only through the listed sites; for-loops over Go maps are the licensed variation"],
        "assumptions": ["Go's type safety: no writes to the tree except through the assignments the translator can see (the one unsafe use in compiler.go is read-only)"],
        "explanation": "table theorems over the regenerated map-range sites + repeat / clone / cache histories with tree snapshots on the implementation, and the single model answer compared",
    },
    "C12": {
        "level": "proof", "cone": ["model/Eval.v", "proofs/EvalProofs.v", "props/C12.v"],
        "trusted_base": COMMON_TB + ["bind_args / bind_fixed / bind_variadic / auto_arg of model/Eval.v transcribe the Go-function branch of evalCallExpression; reflect.AssignableTo is modelled by the assignable table over the shared type family", "silent zero-filling of up to two missing trailing parameters that are neither a map nor a helper context is modelled as the code does it and is part of the stated binding relation"],
        "assumptions": [],
        "explanation": "binding theorems on the model + exhaustive (signature x call shape) enumeration with recording helpers judged against a declarative binding written in Go",
    },
    "C17": {
        "level": "proof", "cone": ["model/Eval.v", "model/Ctx.v", "proofs/EvalProofs.v", "proofs/CtxProofs.v", "proofs/FrameProofs.v", "proofs/DataProofs.v", "props/C17.v"],
        "trusted_base": COMMON_TB + ["partial_call, block_with, block_in_child and the contentFor/contentOf cases of go_apply in model/Eval.v transcribe partial_helper.go, helper_context.go and helpers/content; text/template.JSEscapeString is re-implemented with unicode.IsPrint approximated (only U+2028/2029 non-printable): partial bodies are ASCII in the JS cases", "filepath.Ext re-implemented (ext_of)"],
        "assumptions": [],
        "explanation": "theorems relating block_with / partial_call to inline evaluation on the model, and that the data binds every key (nil values included) in the fresh child scope + generated partial / layout / contentFor / block-helper uses compared with a second, inline run of the real engine",
    },
    "C15": {
        "level": "proof", "cone": ["model/Lexer.v", "model/Parser.v", "model/Eval.v", "proofs/LexerProofs.v", "proofs/LexerEquiv.v", "proofs/EvalProofs.v", "proofs/StmtProofs.v", "props/C15.v"],
        "trusted_base": COMMON_TB + ["the line counter of model/Lexer.v (readChar and the stamping points), the parser's error lines and exec_prog's 'line N:' wrapping transcribe the code; error message text beyond the line prefix is not modelled (compared only between the shifted and unshifted runs of the real engine)"],
        "assumptions": ["'the line on which the tag containing the failing statement begins' is read as the line of the first token of the failing statement's tag"],
        "explanation": "lexer line-counting and shift theorems on the model + generated multi-line templates with one failing statement, with a placement oracle and a shift oracle",
    },
    "C11": {
        "level": "proof", "cone": ["model/Ast.v", "model/Parser.v", "model/Eval.v", "model/Cases.v", "proofs/EvalProofs.v", "props/C11.v"],
        "trusted_base": COMMON_TB + ["eval_chain, eval_index, index_callee (with callee_key: the placeholder name at the root of the callee) and the method lookup of eval_call in model/Eval.v, and assign_callee / split_callee in model/Parser.v, transcribe evalIdentifier, evalAccessIndex, evalIndexCallee, evalCallExpression and the parser's callee rewiring; reflect field/method lookup is modelled on the shared struct family"],
        "assumptions": [],
        "explanation": "theorems about the rebinding key on the model (the former finding c11-method-after-index as a computed example of the repaired behaviour) + all short paths over a self-describing graph compared with Go navigation",
    },
    "C18": {
        "level": "proof", "cone": ["model/Lexer.v", "model/Parser.v", "proofs/LexerProofs.v", "proofs/LexerEquiv.v", "props/C18.v"],
        "trusted_base": COMMON_TB + ["skip_ws, the # comment scan and the statement loops of model/Lexer.v and model/Parser.v transcribe skipWhitespace, the comment case of nextInsideToken, parseProgram and parseBlockStatement"],
        "assumptions": ["the two documented exceptions: '-' and '.' adjacent to a letter or digit belong to the identifier / number"],
        "explanation": "lexer layout theorems on the model + generated token-level programs rendered in canonical and re-laid-out form (metamorphic oracle), both re-evaluated by the model",
    },
}
